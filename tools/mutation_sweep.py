#!/venv/bin/python
"""Generic mutation sweep over the functions the properties are anchored in (development aid).

For every statement of the listed functions: delete it (replace by `pass`), and for every
`if`/`while` negate the test.  Each mutant is written to a per-worker scratch copy of cubed/,
all quick rules of all claimed properties are run on it, and the mutant is listed as
reported / not reported.  The *not reported* list is what a human then triages: equivalent,
value-level (out of reach of this technique), or a blind spot worth a rule.

    tools/mutation_sweep.py [--jobs 12] [qualname ...]      # default: built-in anchor list
    SWEEP_STATIC=1 …                                        # rules only, no smoke run of survivors
"""

import ast
import json
import os
import shutil
import sys
import tempfile
from concurrent.futures import ProcessPoolExecutor

sys.path.insert(0, "/verif")

ANCHORS = [
    "cubed.runtime.asyncio.async_map_unordered",
    "cubed.runtime.asyncio.async_map_dag",
    "cubed.runtime.executors.local.SingleThreadedExecutor.execute_dag",
    "cubed.runtime.executors.local.threads_create_futures_func",
    "cubed.runtime.pipeline.visit_nodes",
    "cubed.runtime.pipeline.visit_node_generations",
    "cubed.runtime.pipeline.skip_node",
    "cubed.core.plan.already_computed",
    "cubed.core.plan.Plan._new",
    "cubed.core.plan.Plan._create_lazy_zarr_arrays",
    "cubed.core.plan.Plan._finalize",
    "cubed.core.plan.FinalizedPlan.execute",
    "cubed.core.plan.FinalizedPlan._calculate_stats",
    "cubed.core.plan.arrays_to_dag",
    "cubed.core.plan.intermediate_store",
    "cubed.core.optimization.fuse_predecessors",
    "cubed.core.optimization.can_fuse_predecessors",
    "cubed.core.optimization.can_fuse_multiple_primitive_ops",
    "cubed.core.optimization.simple_optimize_dag",
    "cubed.core.ops._store_array",
    "cubed.core.ops.store",
    "cubed.core.ops.blockwise",
    "cubed.core.ops._general_blockwise",
    "cubed.core.ops._partial_reduce",
    "cubed.core.ops.unify_chunks",
    "cubed.core.array.check_array_specs",
    "cubed.core.array.CoreArray.compute",
    "cubed.core.array.compute",
    "cubed.primitive.blockwise.general_blockwise",
    "cubed.primitive.blockwise.apply_blockwise",
    "cubed.primitive.blockwise.fuse",
    "cubed.primitive.blockwise.fuse_multiple",
    "cubed.primitive.blockwise.fuse_blockwise_specs",
    "cubed.primitive.blockwise.can_fuse_multiple_primitive_ops",
    "cubed.primitive.memory.calculate_projected_mem",
    "cubed.spec.Spec.__init__",
    "cubed.spec.Spec.__eq__",
    "cubed.utils.convert_to_bytes",
    "cubed.storage.stores.zarr_python_v3.open_zarr_v3_array",
    "cubed.storage.zarr.LazyZarrArray.create",
]


def find_func(tree, parts):
    node = tree
    for p in parts:
        nxt = None
        for c in ast.iter_child_nodes(node):
            if isinstance(c, (ast.FunctionDef, ast.AsyncFunctionDef, ast.ClassDef)) and c.name == p:
                nxt = c
        if nxt is None:
            return None
        node = nxt
    return node


def enumerate_mutants(repo_root, quals):
    from sa.index import Repo

    repo = Repo(root=repo_root)
    out = []
    for q in quals:
        d = repo.defs.get(q)
        if d is None:
            print("anchor not found:", q, file=sys.stderr)
            continue
        rel = d.module.relpath
        src = open(os.path.join(repo_root, rel)).read()
        tree = ast.parse(src)
        parts = q[len(d.module.qual) + 1 :].split(".")
        fn = find_func(tree, parts)
        if fn is None:
            continue
        k = 0
        for n in ast.walk(fn):
            if isinstance(n, (ast.Assign, ast.AugAssign, ast.AnnAssign, ast.Expr, ast.Raise, ast.Continue, ast.Break, ast.Delete, ast.Return)) and n is not fn:
                if isinstance(n, ast.Expr) and isinstance(n.value, ast.Constant):
                    continue
                out.append({"qual": q, "rel": rel, "op": "DEL", "line": n.lineno, "idx": k, "text": ast.unparse(n)[:80]})
                k += 1
            elif isinstance(n, (ast.If, ast.While)):
                out.append({"qual": q, "rel": rel, "op": "NEG", "line": n.lineno, "idx": k, "text": ast.unparse(n.test)[:80]})
                k += 1
    return out


_W = {}


def _worker_root():
    if "root" not in _W:
        from sa.selftest import _copy_pkg

        r = tempfile.mkdtemp(prefix="verif-sweep-")
        _copy_pkg(r)
        _W["root"] = r
    return _W["root"]


def run_mutant(m):
    from sa import AnalysisError
    from sa.index import Repo
    from sa.props import CLAIMED
    from sa.runner import run_property

    root = _worker_root()
    from sa import REPO_ROOT

    p = os.path.join(root, m["rel"])
    orig = open(os.path.join(REPO_ROOT, m["rel"])).read()
    tree = ast.parse(orig)
    parts = m["qual"].split(".")
    # locate by walking from the module: the function path is the tail of the qualname
    fn = None
    for cut in range(1, len(parts)):
        fn = find_func(tree, parts[cut:])
        if fn is not None:
            break
    k = 0
    done = False
    for n in ast.walk(fn):
        hit = None
        if isinstance(n, (ast.Assign, ast.AugAssign, ast.AnnAssign, ast.Expr, ast.Raise, ast.Continue, ast.Break, ast.Delete, ast.Return)) and n is not fn:
            if isinstance(n, ast.Expr) and isinstance(n.value, ast.Constant):
                continue
            hit = "DEL"
        elif isinstance(n, (ast.If, ast.While)):
            hit = "NEG"
        if hit is None:
            continue
        if k == m["idx"]:
            if hit == "DEL":
                # replace in parent body
                for par in ast.walk(fn):
                    for fld in ("body", "orelse", "finalbody"):
                        b = getattr(par, fld, None)
                        if isinstance(b, list) and any(x is n for x in b):
                            b[[i for i, x in enumerate(b) if x is n][0]] = ast.copy_location(ast.Pass(), n)
                            done = True
                    for h in getattr(par, "handlers", []) or []:
                        if any(x is n for x in h.body):
                            h.body[[i for i, x in enumerate(h.body) if x is n][0]] = ast.copy_location(ast.Pass(), n)
                            done = True
            else:
                n.test = ast.UnaryOp(op=ast.Not(), operand=n.test)
                done = True
            break
        k += 1
    if not done:
        return dict(m, status="skipped")
    ast.fix_missing_locations(tree)
    try:
        open(p, "w").write(ast.unparse(tree) + "\n")
        repo = Repo(root=root)
        fired, errs = [], []
        for prop in CLAIMED:
            try:
                res = run_property(repo, prop, "quick")
                fired += [f"{prop}:{o.rule}" for o in res.violations]
            except AnalysisError as e:
                errs.append(f"{prop}:{str(e)[:60]}")
            except Exception as e:  # noqa: BLE001
                errs.append(f"{prop}:CRASH {e!r}"[:80])
        status = "reported" if fired else ("anchor-lost" if errs else "NOT-REPORTED")
        smoke = None
        if status != "reported" and not os.environ.get("SWEEP_STATIC"):
            import subprocess

            try:
                pr = subprocess.run(["/venv/bin/python", "/verif/tools/smoke.py"], cwd=root, capture_output=True, text=True, timeout=240)
                smoke = "pass" if pr.returncode == 0 else ("fail: " + (pr.stdout + pr.stderr).strip().splitlines()[-1][:100] if (pr.stdout + pr.stderr).strip() else f"fail rc={pr.returncode}")
            except subprocess.TimeoutExpired:
                smoke = "fail: timeout (hang)"
        return dict(m, status=status, by=sorted(set(fired))[:6], errs=errs[:2], smoke=smoke)
    finally:
        open(p, "w").write(orig)


def main():
    jobs = 12
    args = sys.argv[1:]
    if args and args[0] == "--jobs":
        jobs = int(args[1])
        args = args[2:]
    from sa import REPO_ROOT

    if args and args[0] == "--recheck":
        # re-run only the mutants that survived earlier sweeps (not reported, smoke passed)
        seen, muts = set(), []
        for fn in args[1:]:
            for l in open(fn):
                r = json.loads(l)
                k = (r["qual"], r["op"], r["idx"])
                if r["status"] != "reported" and r.get("smoke") == "pass" and k not in seen:
                    seen.add(k)
                    muts.append({x: r[x] for x in ("qual", "rel", "op", "line", "idx", "text")})
    else:
        quals = args or ANCHORS
        muts = enumerate_mutants(REPO_ROOT, quals)
    print(len(muts), "mutants", file=sys.stderr)
    with ProcessPoolExecutor(max_workers=jobs) as ex:
        res = list(ex.map(run_mutant, muts, chunksize=4))
    for r in res:
        print(json.dumps(r))
    from collections import Counter

    print(Counter(r["status"] for r in res), file=sys.stderr)
    # scratch roots of workers are left to the OS tmp cleaner only if the pool died; remove ours
    for d in os.listdir(tempfile.gettempdir()):
        if d.startswith("verif-sweep-"):
            shutil.rmtree(os.path.join(tempfile.gettempdir(), d), ignore_errors=True)


if __name__ == "__main__":
    main()
