# pytest plugin (-p verif_nodeadline, PYTHONPATH=/verif/tools): the machine is shared and busy, so
# hypothesis' 200 ms per-example deadline fails at random.  The tests themselves are untouched;
# only the timing limit is lifted when *re-running* tests that failed in the full run.
from hypothesis import settings

settings.register_profile("verif_nodeadline", deadline=None)
settings.load_profile("verif_nodeadline")
