#!/venv/bin/python
"""Confirm every candidate of one seeding round: for each <round dir>/<Cxx>/out/patch<k>.diff with a
demo<k>.py, run tools/verify_seeded.py under the next free id <Cxx>-<n> (several at a time).

usage: verify_round.py <round dir> [--jobs N] [--only C07,C08]
Logs: <round dir>/<Cxx>/verify<k>.log ; a candidate already verified (log ends with kept/rejected) is skipped.
"""
import os
import re
import subprocess
import sys
from concurrent.futures import ThreadPoolExecutor

SEEDED = "/verif/seeded"
HERE = os.path.dirname(os.path.abspath(__file__))


def next_ids(prop: str, n: int, taken: set) -> list[str]:
    used = {int(m.group(1)) for x in list(os.listdir(SEEDED)) + list(taken) if (m := re.fullmatch(rf"{prop}-(\d+)", x))}
    out = []
    i = 1
    while len(out) < n:
        if i not in used:
            out.append(f"{prop}-{i}")
            used.add(i)
        i += 1
    return out


def main():
    rd = sys.argv[1]
    jobs = int(sys.argv[sys.argv.index("--jobs") + 1]) if "--jobs" in sys.argv else 3
    only = set(sys.argv[sys.argv.index("--only") + 1].split(",")) if "--only" in sys.argv else None
    work = []
    taken: set = set()
    # ids already handed out in earlier invocations are recorded in the logs
    for prop in sorted(os.listdir(rd)):
        for f in os.listdir(os.path.join(rd, prop)) if os.path.isdir(os.path.join(rd, prop)) else []:
            if f.startswith("verify") and f.endswith(".log"):
                first = open(os.path.join(rd, prop, f)).readline().strip()
                if first.startswith("id="):
                    taken.add(first[3:])
    for prop in sorted(os.listdir(rd)):
        if only and prop not in only:
            continue
        out = os.path.join(rd, prop, "out")
        if not os.path.isdir(out):
            continue
        ks = sorted(int(m.group(1)) for f in os.listdir(out) if (m := re.fullmatch(r"patch(\d+)\.diff", f)) and os.path.exists(os.path.join(out, f"demo{m.group(1)}.py")))
        for k in ks:
            log = os.path.join(rd, prop, f"verify{k}.log")
            if os.path.exists(log) and re.search(r" (kept|rejected)\b", open(log).read()):
                continue
            sid = next_ids(prop, 1, taken)[0]
            taken.add(sid)
            work.append((sid, prop, out, k, log))

    def run(w):
        sid, prop, out, k, log = w
        with open(log, "w") as f:
            f.write(f"id={sid}\n")
            f.flush()
            p = subprocess.run(["/venv/bin/python", os.path.join(HERE, "verify_seeded.py"), sid, prop, out, str(k)], stdout=f, stderr=subprocess.STDOUT)
        return sid, p.returncode

    with ThreadPoolExecutor(max_workers=jobs) as ex:
        for sid, rc in ex.map(run, work):
            print(sid, "kept" if rc == 0 else "rejected/failed", flush=True)


if __name__ == "__main__":
    main()
