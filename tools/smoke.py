"""Ordinary-use smoke program (triage aid for tools/mutation_sweep.py; not part of any check).
Run with the tree under test as cwd.  Exit 0 = nothing ordinary use would notice."""
import os
import sys
import tempfile

sys.path.insert(0, os.getcwd())
import numpy as np

import cubed
import cubed.array_api as xp
from cubed.runtime.create import create_executor
from cubed.runtime.types import Callback


class Count(Callback):
    def __init__(self):
        self.ev = []

    def on_compute_start(self, e):
        self.ev.append("cs")

    def on_compute_end(self, e):
        self.ev.append("ce")

    def on_operation_start(self, e):
        self.ev.append(("os", e.name))

    def on_operation_end(self, e):
        self.ev.append(("oe", e.name))

    def on_task_end(self, e):
        self.ev.append(("t", e.name))


def main():
    tmp = tempfile.mkdtemp(prefix="verif-smoke-")
    spec = cubed.Spec(work_dir=tmp, allowed_mem="200MB")
    an = np.arange(16.0).reshape(4, 4)
    a = xp.asarray(an, chunks=(2, 2), spec=spec)
    b = xp.asarray(np.ones((4, 4)), chunks=(2, 2), spec=spec)
    c = xp.add(a, b)
    d = xp.sum(c, axis=0)
    e = xp.negative(c)
    assert np.allclose(d.compute(), (an + 1).sum(axis=0))
    assert np.allclose(e.compute(), -(an + 1))
    r = c.rechunk((4, 1))
    assert np.allclose(r.compute(), an + 1)
    m = xp.mean(a, axis=1)
    assert np.allclose(m.compute(), an.mean(axis=1))
    x, y = cubed.compute(c, d)
    assert np.allclose(x, an + 1) and np.allclose(y, (an + 1).sum(axis=0))
    p = os.path.join(tmp, "out.zarr")
    cubed.to_zarr(e, p)
    assert np.allclose(cubed.from_zarr(p, spec=spec).compute(), -(an + 1))
    for name in ("threads", "processes"):
        ex = create_executor(name)
        cb = Count()
        f = xp.multiply(xp.add(a, b), b)
        g = xp.sum(f)
        plan_tasks = g.plan().num_tasks
        val = g.compute(executor=ex, callbacks=[cb])
        assert np.allclose(val, ((an + 1)).sum())
        assert sum(1 for v in cb.ev if isinstance(v, tuple) and v[0] == "t") == plan_tasks, (cb.ev, plan_tasks)
        assert cb.ev[0] == "cs" and cb.ev[-1] == "ce"
        val = g.compute(executor=ex, resume=True)
        assert np.allclose(val, ((an + 1)).sum())
    h = xp.concat([a, b], axis=0)
    assert np.allclose(h.compute(), np.concatenate([an, np.ones((4, 4))], axis=0))
    i = a[1:3, ::2]
    assert np.allclose(i.compute(), an[1:3, ::2])
    j = xp.matmul(a, b)
    assert np.allclose(j.compute(optimize_graph=False), an @ np.ones((4, 4)))
    try:
        xp.add(a, xp.asarray(an, chunks=(2, 2), spec=cubed.Spec(work_dir=tmp, allowed_mem="100MB")))
        return 3
    except ValueError:
        pass
    assert cubed.Spec(allowed_mem="1GB").allowed_mem == 1_000_000_000
    return 0


if __name__ == "__main__":
    try:
        rc = main()
    except BaseException as ex:  # noqa: BLE001
        print("SMOKE-FAIL", type(ex).__name__, str(ex)[:200])
        rc = 1
    sys.exit(rc)
