"""Ordinary-use smoke program (triage aid for tools/mutation_sweep.py; not part of any check).
Run with the tree under test as cwd.  Exit 0 = nothing ordinary use would notice."""
import os
import sys
import tempfile

sys.path.insert(0, os.getcwd())
import numpy as np

import cubed
import cubed.array_api as xp
from cubed.runtime.create import create_executor
from cubed.runtime.types import Callback


class Count(Callback):
    def __init__(self):
        self.ev = []

    def on_compute_start(self, e):
        self.ev.append("cs")

    def on_compute_end(self, e):
        self.ev.append("ce")

    def on_operation_start(self, e):
        self.ev.append(("os", e.name))

    def on_operation_end(self, e):
        self.ev.append(("oe", e.name))

    def on_task_end(self, e):
        self.ev.append(("t", e.name))


def main():
    tmp = tempfile.mkdtemp(prefix="verif-smoke-")
    spec = cubed.Spec(work_dir=tmp, allowed_mem="200MB")
    an = np.arange(16.0).reshape(4, 4)
    a = xp.asarray(an, chunks=(2, 2), spec=spec)
    b = xp.asarray(np.ones((4, 4)), chunks=(2, 2), spec=spec)
    c = xp.add(a, b)
    d = xp.sum(c, axis=0)
    e = xp.negative(c)
    assert np.allclose(d.compute(), (an + 1).sum(axis=0))
    assert np.allclose(e.compute(), -(an + 1))
    r = c.rechunk((4, 1))
    assert np.allclose(r.compute(), an + 1)
    m = xp.mean(a, axis=1)
    assert np.allclose(m.compute(), an.mean(axis=1))
    x, y = cubed.compute(c, d)
    assert np.allclose(x, an + 1) and np.allclose(y, (an + 1).sum(axis=0))
    p = os.path.join(tmp, "out.zarr")
    cubed.to_zarr(e, p)
    assert np.allclose(cubed.from_zarr(p, spec=spec).compute(), -(an + 1))
    for name in ("threads", "processes"):
        ex = create_executor(name)
        cb = Count()
        f = xp.multiply(xp.add(a, b), b)
        g = xp.sum(f)
        plan_tasks = g.plan().num_tasks
        val = g.compute(executor=ex, callbacks=[cb])
        assert np.allclose(val, ((an + 1)).sum())
        assert sum(1 for v in cb.ev if isinstance(v, tuple) and v[0] == "t") == plan_tasks, (cb.ev, plan_tasks)
        assert cb.ev[0] == "cs" and cb.ev[-1] == "ce"
        val = g.compute(executor=ex, resume=True)
        assert np.allclose(val, ((an + 1)).sum())
    h = xp.concat([a, b], axis=0)
    assert np.allclose(h.compute(), np.concatenate([an, np.ones((4, 4))], axis=0))
    i = a[1:3, ::2]
    assert np.allclose(i.compute(), an[1:3, ::2])
    j = xp.matmul(a, b)
    assert np.allclose(j.compute(optimize_graph=False), an @ np.ones((4, 4)))
    try:
        xp.add(a, xp.asarray(an, chunks=(2, 2), spec=cubed.Spec(work_dir=tmp, allowed_mem="100MB")))
        return 3
    except ValueError:
        pass
    assert cubed.Spec(allowed_mem="1GB").allowed_mem == 1_000_000_000
    # --- wider sample of the public surface -------------------------------------------------
    bn = np.arange(16.0, 32.0).reshape(4, 4)
    b2 = xp.asarray(bn, chunks=(4, 1), spec=spec)  # chunked differently from a
    assert np.allclose(xp.stack([a, b2]).compute(), np.stack([an, bn]))
    assert np.allclose(xp.add(a, b2).compute(), an + bn)
    assert np.allclose(xp.broadcast_to(xp.asarray(np.arange(4.0), chunks=2, spec=spec), (3, 4)).compute(), np.broadcast_to(np.arange(4.0), (3, 4)))
    assert np.allclose(xp.reshape(a, (2, 2, 4)).compute(), an.reshape(2, 2, 4))
    assert np.allclose(xp.permute_dims(a, (1, 0)).compute(), an.T)
    assert np.allclose(xp.expand_dims(a, axis=0).compute(), an[None])
    assert np.array_equal(xp.argmax(a, axis=1).compute(), an.argmax(axis=1))
    assert np.allclose(xp.max(a, axis=0).compute(), an.max(axis=0))
    assert np.allclose(xp.cumulative_sum(xp.asarray(np.arange(8.0), chunks=2, spec=spec)).compute(), np.cumsum(np.arange(8.0)))
    assert np.allclose(xp.where(a > 5, a, b).compute(), np.where(an > 5, an, 1.0))
    assert np.allclose(xp.repeat(a, 2, axis=0).compute(), np.repeat(an, 2, axis=0))
    assert np.allclose(a[1, :].compute(), an[1, :])
    assert np.allclose(a[[0, 2], :].compute(), an[[0, 2], :])
    assert np.allclose(xp.zeros_like(a).compute(), 0) and xp.ones((3, 3), chunks=2, spec=spec).compute().sum() == 9
    r1 = cubed.random.random((4, 4), chunks=2, spec=spec)
    v1, v2 = r1.compute(), r1.compute()
    assert np.array_equal(v1, v2) and len(np.unique(v1)) > 8
    fa = cubed.from_array(an, chunks=(2, 2), spec=spec)
    assert np.allclose(fa.compute(), an)

    def blk(x, block_id=None):
        return x + block_id[0] * 10 + block_id[1]

    mb = cubed.map_blocks(blk, a, dtype=a.dtype)
    exp = an.copy()
    for i in range(2):
        for j in range(2):
            exp[2 * i : 2 * i + 2, 2 * j : 2 * j + 2] += i * 10 + j
    assert np.allclose(mb.compute(), exp)
    assert np.allclose(a.rechunk((1, 4)).compute(), an)
    assert np.allclose(cubed.pad(a, ((1, 0), (0, 0)), mode="symmetric").compute(), np.pad(an, ((1, 0), (0, 0)), mode="symmetric"))
    # stores: several pairs, a region, an existing zarr array
    import zarr

    t1, t2 = os.path.join(tmp, "s1.zarr"), os.path.join(tmp, "s2.zarr")
    cubed.store([xp.negative(a), xp.add(a, b)], [t1, t2])
    assert np.allclose(zarr.open_array(t1)[:], -an) and np.allclose(zarr.open_array(t2)[:], an + 1)
    tz = zarr.create_array(os.path.join(tmp, "reg.zarr"), shape=(8, 4), chunks=(2, 2), dtype="f8", fill_value=-1.0)
    cubed.to_zarr(xp.add(a, b), tz, region=(slice(4, 8), slice(0, 4)))
    got = tz[:]
    assert np.allclose(got[4:], an + 1) and np.all(got[:4] == -1.0)
    lz = cubed.to_zarr(xp.negative(a), os.path.join(tmp, "lazy.zarr"), compute=False)
    assert not os.path.exists(os.path.join(tmp, "lazy.zarr", "c"))
    lz.compute()
    assert np.allclose(zarr.open_array(os.path.join(tmp, "lazy.zarr"))[:], -an)
    # executor options
    ex = create_executor("threads")
    big = xp.asarray(np.arange(40.0), chunks=2, spec=spec)
    cb = Count()
    w = xp.add(big, 1)
    w2 = xp.multiply(big, 2)
    o1, o2 = cubed.compute(w, w2, executor=ex, callbacks=[cb], compute_arrays_in_parallel=True, batch_size=3, optimize_graph=False)
    assert np.allclose(o1, np.arange(40.0) + 1) and np.allclose(o2, np.arange(40.0) * 2)
    starts = [v for v in cb.ev if isinstance(v, tuple) and v[0] == "os"]
    ends = [v for v in cb.ev if isinstance(v, tuple) and v[0] == "oe"]
    assert len(starts) == len(ends) == len({v[1] for v in starts}) and len(starts) >= 2, cb.ev
    o3 = xp.add(big, 2).compute(executor=ex, use_backups=True, batch_size=7)
    assert np.allclose(o3, np.arange(40.0) + 2)
    try:
        xp.add(a, 1).compute(executor=create_executor("single-threaded"), callbacks=[Count()])
    except Exception:
        raise
    tiny = cubed.Spec(work_dir=tmp, allowed_mem=100)
    try:
        xp.add(xp.asarray(an, chunks=(2, 2), spec=tiny), 1).compute()
        return 4
    except ValueError:
        pass
    xp.add(a, b).visualize(filename=os.path.join(tmp, "dag"), optimize_graph=True)
    return 0


if __name__ == "__main__":
    try:
        rc = main()
    except BaseException as ex:  # noqa: BLE001
        print("SMOKE-FAIL", type(ex).__name__, str(ex)[:200])
        rc = 1
    sys.exit(rc)
