#!/venv/bin/python
"""Confirm a candidate breaking change produced by an independent sub-agent, and keep it.

For candidate  <src>/patch<k>.diff + <src>/demo<k>.py  (+ notes<k>.md):
  1. fresh worktree of /repo HEAD under /tmp/verif-verify/<id>
  2. demo on the pristine tree must exit 0
  3. patch must apply; demo must exit non-zero
  4. the project's test suite (spark-parametrised tests deselected: they fail in this
     sandbox before and after for an interpreter-version mismatch) must still pass for every
     test of the stable baseline set
  5. copy patch.diff / demo.py / notes.md and write meta.json into /verif/seeded/<id>/
  6. remove the worktree

usage: verify_seeded.py <id> <property> <src dir> <k> [--skip-suite]
"""

import json
import os
import shutil
import subprocess
import sys
import xml.etree.ElementTree as ET

PY = "/venv/bin/python"
REPO = "/repo"
SEEDED = "/verif/seeded"
SCRATCH = "/tmp/verif-verify"


def run(cmd, cwd, timeout=3600):
    p = subprocess.run(cmd, cwd=cwd, capture_output=True, text=True, timeout=timeout)
    return p.returncode, (p.stdout + p.stderr)[-3000:]


def main():
    sid, prop, src, k = sys.argv[1:5]
    skip_suite = "--skip-suite" in sys.argv
    wt = os.path.join(SCRATCH, sid)
    os.makedirs(SCRATCH, exist_ok=True)
    if os.path.exists(wt):
        subprocess.run(["git", "-C", REPO, "worktree", "remove", "--force", wt])
    subprocess.run(["git", "-C", REPO, "worktree", "add", "--detach", wt, "HEAD", "-q"], check=True)
    meta = {"id": sid, "property": prop, "source": "independent sub-agent (given only the property text and a scratch worktree)", "ran": []}
    try:
        patch = os.path.join(src, f"patch{k}.diff")
        demo = os.path.join(src, f"demo{k}.py")
        env_note = "cwd = worktree, so `import cubed` resolves to the worktree"
        rc0, out0 = run([PY, demo], wt, 1800)
        meta["ran"].append({"cmd": f"{PY} demo.py   # pristine tree, {env_note}", "exit": rc0, "tail": out0[-600:]})
        rca, outa = run(["git", "apply", patch], wt)
        meta["ran"].append({"cmd": "git apply patch.diff", "exit": rca, "tail": outa[-300:]})
        if rca != 0:
            meta["verdict"] = "rejected: patch does not apply"
            print(json.dumps(meta, indent=1))
            return 1
        rcc, outc = run([PY, "-m", "compileall", "-q", "cubed"], wt)
        meta["ran"].append({"cmd": "python -m compileall -q cubed", "exit": rcc})
        rc1, out1 = run([PY, demo], wt, 1800)
        meta["ran"].append({"cmd": f"{PY} demo.py   # patched tree", "exit": rc1, "tail": out1[-800:]})
        ok = rc0 == 0 and rc1 != 0 and rcc == 0
        if ok and not skip_suite:
            junit = os.path.join(SCRATCH, f"{sid}.junit.xml")
            rcs, outs = run(
                [PY, "-m", "pytest", "-q", "-p", "no:cacheprovider", "--timeout=900", "--continue-on-collection-errors", "-k", "not spark", f"--junitxml={junit}"],
                wt,
                4 * 3600,
            )
            stable = set(json.load(open("/root/.vp/BASELINE.json"))["stable_pass"])
            passed = set()
            try:
                for tc in ET.parse(junit).iter("testcase"):
                    if not list(tc):
                        passed.add(tc.get("classname") + "::" + tc.get("name"))
            except Exception as e:  # noqa: BLE001
                outs += f"\n(junit unreadable: {e})"
            broken = sorted(t for t in stable if "spark" not in t and t not in passed)
            if broken and len(broken) <= 40:
                # the machine is shared: timing-sensitive tests (hypothesis deadlines, straggler
                # tests) fail under load.  Re-run just those, alone; what passes then was a flake.
                ids = []
                for t in broken:
                    cls, _, name = t.partition("::")
                    parts = cls.split(".")
                    for cut in range(len(parts), 0, -1):
                        fp = os.path.join(wt, *parts[:cut]) + ".py"
                        if os.path.exists(fp):
                            ids.append("::".join([os.path.relpath(fp, wt)] + parts[cut:] + [name]))
                            break
                junit2 = os.path.join(SCRATCH, f"{sid}.rerun.junit.xml")
                env = dict(os.environ, PYTHONPATH="/verif/tools" + (":" + os.environ["PYTHONPATH"] if os.environ.get("PYTHONPATH") else ""))
                outr, rcr = "", 1
                for attempt in range(3):
                    todo = [i_ for i_, t in zip(ids, broken) if t not in passed] if len(ids) == len(broken) else ids
                    if not todo:
                        break
                    p_ = subprocess.run([PY, "-m", "pytest", "-q", "-p", "no:cacheprovider", "-p", "verif_nodeadline", "--timeout=900", f"--junitxml={junit2}"] + todo, cwd=wt, capture_output=True, text=True, timeout=3600, env=env)
                    rcr, outr = p_.returncode, (p_.stdout + p_.stderr)[-3000:]
                    try:
                        for tc in ET.parse(junit2).iter("testcase"):
                            if not list(tc):
                                passed.add(tc.get("classname") + "::" + tc.get("name"))
                    except Exception as e:  # noqa: BLE001
                        outr += f"\n(junit unreadable: {e})"
                    if os.path.exists(junit2):
                        os.remove(junit2)
                still = sorted(t for t in broken if t not in passed)
                meta["ran"].append({"cmd": "pytest -p verif_nodeadline <the stable tests that did not pass in the full run, alone, up to 3 attempts; hypothesis deadline lifted>   # patched tree", "exit": rcr, "first_run_not_passing": broken[:20], "still_not_passing": still[:20], "tail": outr[-300:]})
                broken = still
            meta["ran"].append({"cmd": "pytest -q -p no:cacheprovider --timeout=900 -k 'not spark'   # patched tree", "exit": rcs, "tail": outs[-400:], "stable_tests_not_passing": broken[:20]})
            ok = ok and not broken
            if os.path.exists(junit):
                os.remove(junit)
        meta["verdict"] = "kept" if ok else "rejected"
        os.makedirs(os.path.join(SCRATCH, "meta"), exist_ok=True)
        json.dump(meta, open(os.path.join(SCRATCH, "meta", f"{sid}.json"), "w"), indent=1)
        if ok:
            d = os.path.join(SEEDED, sid)
            os.makedirs(d, exist_ok=True)
            shutil.copy(patch, os.path.join(d, "patch.diff"))
            shutil.copy(demo, os.path.join(d, "demo.py"))
            notes = os.path.join(src, f"notes{k}.md")
            if os.path.exists(notes):
                shutil.copy(notes, os.path.join(d, "notes.md"))
            json.dump(meta, open(os.path.join(d, "meta.json"), "w"), indent=1)
        print(sid, meta["verdict"], "demo pristine/patched exit:", rc0, rc1)
        if not ok:
            print(json.dumps(meta["ran"][-2:], indent=1)[-3000:])
        return 0 if ok else 1
    finally:
        subprocess.run(["git", "-C", REPO, "worktree", "remove", "--force", wt])


if __name__ == "__main__":
    sys.exit(main())
