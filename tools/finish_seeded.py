#!/venv/bin/python
"""Finish the confirmation of a seeded change whose full-suite run ended with only
load-sensitive tests not passing (hypothesis deadlines, straggler timing).

Reads the earlier log of tools/verify_seeded.py for that id (the full run's summary line and the
list of stable tests that still did not pass), makes a fresh worktree, re-checks the
demonstration on the pristine and on the patched tree, re-runs exactly those tests on the
patched tree (hypothesis deadline lifted, up to 3 attempts), and keeps the change under
/verif/seeded/<id>/ if they pass.

usage: finish_seeded.py <id> <property> <src dir> <k> <log file>
"""
import json
import os
import re
import shutil
import subprocess
import sys
import xml.etree.ElementTree as ET

PY, REPO, SEEDED, SCRATCH = "/venv/bin/python", "/repo", "/verif/seeded", "/tmp/verif-verify"


def run(cmd, cwd, timeout=3600, env=None):
    p = subprocess.run(cmd, cwd=cwd, capture_output=True, text=True, timeout=timeout, env=env)
    return p.returncode, (p.stdout + p.stderr)[-3000:]


def main():
    sid, prop, src, k, log = sys.argv[1:6]
    txt = open(log).read()
    m = re.search(r'"still_not_passing": \[(.*?)\n\s*\]', txt, re.S)
    still = re.findall(r'"([^"\n]+)"', m.group(1)) if m else []
    summ = re.findall(r"(\d+ failed, \d+ passed[^\\n\"]*)", txt)
    first = re.search(r'"first_run_not_passing": \[(.*?)\n\s*\]', txt, re.S)
    first_list = re.findall(r'"([^"\n]+)"', first.group(1)) if first else []
    if not still:
        print(sid, "no still_not_passing list in", log)
        return 2
    wt = os.path.join(SCRATCH, sid + "-fin")
    if os.path.exists(wt):
        subprocess.run(["git", "-C", REPO, "worktree", "remove", "--force", wt])
    subprocess.run(["git", "-C", REPO, "worktree", "add", "--detach", wt, "HEAD", "-q"], check=True)
    meta = {"id": sid, "property": prop, "source": "independent sub-agent (given only the property text and a scratch worktree)", "ran": []}
    try:
        patch, demo = os.path.join(src, f"patch{k}.diff"), os.path.join(src, f"demo{k}.py")
        rc0, out0 = run([PY, demo], wt, 1800)
        meta["ran"].append({"cmd": f"{PY} demo.py   # pristine tree, cwd = worktree", "exit": rc0, "tail": out0[-600:]})
        rca, outa = run(["git", "apply", patch], wt)
        meta["ran"].append({"cmd": "git apply patch.diff", "exit": rca})
        rcc, _ = run([PY, "-m", "compileall", "-q", "cubed"], wt)
        meta["ran"].append({"cmd": "python -m compileall -q cubed", "exit": rcc})
        rc1, out1 = run([PY, demo], wt, 1800)
        meta["ran"].append({"cmd": f"{PY} demo.py   # patched tree", "exit": rc1, "tail": out1[-800:]})
        meta["ran"].append({"cmd": "pytest -q -p no:cacheprovider --timeout=900 -k 'not spark'   # patched tree, earlier run on the loaded machine", "summary": summ[-1] if summ else "?", "stable_tests_not_passing_in_that_run": first_list[:30]})
        ids = []
        for t in still:
            cls, _, name = t.partition("::")
            parts = cls.split(".")
            for cut in range(len(parts), 0, -1):
                fp = os.path.join(wt, *parts[:cut]) + ".py"
                if os.path.exists(fp):
                    ids.append("::".join([os.path.relpath(fp, wt)] + parts[cut:] + [name]))
                    break
        env = dict(os.environ, PYTHONPATH="/verif/tools")
        passed = set()
        junit = os.path.join(SCRATCH, f"{sid}.fin.junit.xml")
        outr = ""
        for attempt in range(3):
            todo = [i for i, t in zip(ids, still) if t not in passed]
            if not todo:
                break
            rcr, outr = run([PY, "-m", "pytest", "-q", "-p", "no:cacheprovider", "-p", "verif_nodeadline", "--timeout=900", f"--junitxml={junit}"] + todo, wt, 3600, env)
            try:
                for tc in ET.parse(junit).iter("testcase"):
                    if not list(tc):
                        passed.add(tc.get("classname") + "::" + tc.get("name"))
            except Exception as e:  # noqa: BLE001
                outr += f"\n(junit unreadable: {e})"
            if os.path.exists(junit):
                os.remove(junit)
        left = sorted(t for t in still if t not in passed)
        meta["ran"].append({"cmd": "pytest -p verif_nodeadline <those tests, alone, hypothesis deadline lifted, up to 3 attempts>   # patched tree", "tests": still, "still_not_passing": left, "tail": outr[-300:]})
        ok = rc0 == 0 and rca == 0 and rcc == 0 and rc1 != 0 and not left
        meta["verdict"] = "kept" if ok else "rejected"
        if ok:
            d = os.path.join(SEEDED, sid)
            os.makedirs(d, exist_ok=True)
            shutil.copy(patch, os.path.join(d, "patch.diff"))
            shutil.copy(demo, os.path.join(d, "demo.py"))
            notes = os.path.join(src, f"notes{k}.md")
            if os.path.exists(notes):
                shutil.copy(notes, os.path.join(d, "notes.md"))
            json.dump(meta, open(os.path.join(d, "meta.json"), "w"), indent=1)
        print(sid, meta["verdict"], "demo pristine/patched exit:", rc0, rc1, "left:", left)
        return 0 if ok else 1
    finally:
        subprocess.run(["git", "-C", REPO, "worktree", "remove", "--force", wt])


if __name__ == "__main__":
    sys.exit(main())
