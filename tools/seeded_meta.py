#!/venv/bin/python
"""Complete /verif/seeded/<id>/meta.json with what the verification run cannot know by itself:
what the change needs in order to manifest, which properties' checks to run against it, what
the checks are expected to say, and which rule reports it.  Idempotent; run after
tools/verify_seeded.py / tools/finish_seeded.py have written the directory.

    tools/seeded_meta.py            # update every directory that exists
"""
import json
import os

SEEDED = "/verif/seeded"

# id: (needs, check_properties, expect, caught_by, note)
T = {
    # ------------------------------------------------------------------ round 1
    "C01-1": ("pad(..., mode='constant', constant_values=(a, b)) with a != b", ["C01"], "caught", "TWIN-ROLE-1", "rule added because of this change"),
    "C01-2": ("matmul with both operands 1-D", ["C01"], "missed-by-design", None, "the result shape of a composite is value-level"),
    "C02-1": ("legacy optimiser (simple_optimize_dag) and a fusable pair whose block sets differ", ["C02"], "caught", "FUSE-PROV-1", "existing rule"),
    "C02-2": ("a forcing optimiser option (always_fuse / fuse_all) and a requested intermediate array or a multi-output predecessor", ["C02"], "caught", "FUSE-GUARD-1", "existing rule"),
    "C03-1": ("the same array at two operand positions of one operation", ["C03"], "caught", "MEM-CALL-1", "existing rule"),
    "C03-2": ("a widening reduction over thin chunks", ["C03"], "caught", "MEM-DTYPE-1", "rule added because of this change"),
    "C04-1": ("forced fusion and allowed_mem between the un-fused and the fused projection", ["C04"], "caught", "ADMIT-COLLECT-1", "existing rule"),
    "C04-2": ("a fusion whose first fused predecessor is the heaviest operation", ["C04"], "caught", "MEM-FUSEMAX-1", "existing rule"),
    "C05-1": ("rechunk(..., allow_irregular=False) with a plan of two or more stages", ["C05"], "caught", "RECHUNK-GRID-1", "rule added because of this change"),
    "C05-2": ("a sharded Zarr target whose shards differ from the source chunks", ["C05"], "caught", "TARGET-COMPAT-1", "clause strengthened because of this change"),
    "C06-1": ("a structured-dtype intermediate and a create-arrays task that runs again after data was written", ["C06"], "caught", "CREATE-MODE-1", "existing rule"),
    "C06-2": ("processes executor with batch_size and at least two operations", ["C06"], "caught", "PICKLE-PAIR-1", "rule added because of this change"),
    "C07-1": ("batch_size set and an in-flight set that completes within one wait round", ["C07", "C08", "C19"], "caught", "MAP-DRAIN-1", "clause refill-after-wait added because of this change"),
    "C07-2": ("resume=True together with compute_arrays_in_parallel", ["C07"], "caught", "BARRIER-SRC-1", "existing rule"),
    "C08-1": ("use_backups, a twin that fails and the other one succeeding afterwards", ["C08"], "caught", "MAP-TWIN-SYM-1", "rule added because of this change"),
    "C08-2": ("retries=0 passed as an executor option", ["C08"], "caught", "RETRY-1", "clause option-forwarded added because of this change"),
    "C09-1": ("resume=True and a multi-output operation interrupted between its outputs", ["C09"], "caught", "RESUME-ALL-1", "first run: ANALYSIS-ERROR (anchor lost); rule generalised because of this change"),
    "C09-2": ("resume=True and a finished array with an all-fill-value chunk", ["C09"], "caught", "ZARR-CONFIG-1", "existing rule"),
    "C10-1": ("a zero-dimensional array and a run aborted after create-arrays, then resume", ["C10", "C09"], "caught", "RESUME-ALL-1", "existing rule, registered for C10 because of this change"),
    "C10-2": ("compute(y1, z) where y1 is an intermediate of z", ["C10", "C02"], "caught", "FUSE-GUARD-1", "existing rule, registered for C10 because of this change"),
    "C11-1": ("a region store into a target whose chunk sizes differ per axis", ["C11"], "caught", "STORE-GUARD-1", "clause offset-per-axis added because of this change"),
    "C11-2": ("a lazy store (compute=False) followed by computing something derived from the stored array", ["C11"], "caught", "STORE-NOFUSE-1", "rule added because of this change"),
    "C12-1": ("tensordot over several axes listed in descending order", ["C12"], "missed-by-design", None, "which axes NumPy contracts is value-level"),
    "C12-2": ("a block view of an array whose last block is shorter", ["C12"], "caught", "META-1", "clause identity-chunks added because of this change"),
    "C13-1": ("compute_arrays_in_parallel with two or more operations per generation", ["C13"], "caught", "EVENTS-1", "existing rule"),
    "C13-2": ("a region store whose region ends in a ragged edge", ["C13"], "missed-by-design", None, "rounding of a quotient; COUNT-1 decides provenance, not arithmetic"),
    "C15-1": ("the same array passed twice to blockwise with different index patterns", ["C15"], "caught", "PROXY-KEYS-1", "clause positional-plan added because of this change"),
    "C15-2": ("a repeated argument behind a streaming (iterator-of-blocks) predecessor, fused", ["C15"], "caught", "NEST-DISPATCH-1", "existing rule"),
    "C16-1": ("to_zarr(x, store, path=..., compute=False)", ["C16"], "caught", "LAZY-ENTRY-1", "existing rule"),
    "C16-2": ("clip with a 0-d cubed array as a bound", ["C16"], "caught", "LAZY-IMPLICIT-1", "rule added because of this change"),
    "C17-1": ("stack of same-shape arrays chunked differently", ["C17", "C01"], "caught", "ALIGN-1", "clause stale-alias added because of this change"),
    "C17-2": ("a reduction over no axes (axis=() or a 0-d operand)", ["C17"], "caught", "DIVZERO-1", "rule added because of this change"),
    "C18-1": ("a size literal with a large fractional part, e.g. '1999.9996kB'", ["C18"], "caught", "BYTES-1", "existing rule"),
    "C18-2": ("plan() / visualize() of arrays built under different specs, without compute", ["C18"], "caught", "SPEC-CHECK-1", "existing rule"),
    "C19-1": ("broadcast_to under an explicit, non-default Spec", ["C19"], "caught", "SPEC-THREAD-1", "existing rule"),
    "C19-2": ("two sessions sharing one work_dir", ["C19", "C20", "C10"], "caught", "CLEANUP-1", "clause intermediate added because of this change"),
    "C20-1": ("a child process (CONTEXT_ID inherited through the environment)", ["C20", "C10"], "caught", "CLEANUP-1", "clause context-id strengthened because of this change"),
    "C20-2": ("an unpickled array combined with a locally built one", ["C20", "C18", "C19"], "caught", "SPEC-CHECK-2", "existing rule, registered for C20 because of this change"),
    # ------------------------------------------------------------------ round 2 (fresh agents, same brief)
    "C01-3": ("moveaxis on an array of 3 or more dimensions with a move that is not a swap", ["C01"], "missed-by-design", None, "an inverse permutation is value-level"),
    "C01-4": ("searchsorted with x1 split into three or more blocks", ["C01"], "missed-by-design", None, "cumulative vs. plain offsets is arithmetic"),
    "C03-3": ("an optimised plan where a fused predecessor needs more memory than its consumer", ["C03", "C04"], "caught", "MEM-FUSEMAX-1", "existing rule"),
    "C03-4": ("a plain reduction over skinny chunks with several blocks per task", ["C03"], "caught", "NEST-LAZY-1", "clause no-collector added because of this change"),
    "C05-4": ("one lazy array materialised twice in one process (compute then to_zarr, or two to_zarr)", ["C05", "C06", "C11"], "caught", "PROXY-OPEN-1", "rule added because of this change (C06 alone: TASK-PURE-1, existing)"),
    "C06-3": ("same change as C05-4, produced independently for C06", ["C06", "C05", "C11"], "caught", "TASK-PURE-1", "existing rule; PROXY-OPEN-1 added for C05/C11"),
    "C07-3": ("resume=True, a multi-output operation interrupted between its two output writes", ["C07", "C09"], "caught", "RESUME-ALL-1", "first run: ANALYSIS-ERROR under C09, nothing under C07; rule now reports and is registered for C07"),
    "C07-4": ("batch_size set; threads/processes executor; storage latency", ["C07"], "caught", "MAP-DRAIN-1", "existing rule"),
    "C08-3": ("use_backups; a task and its backup finishing in one wait round with mixed outcomes", ["C08"], "caught", "MAP-ONCE-1", "clause once:raise added because of this change"),
    "C09-4": ("multi-output operation whose first output was stored lazily with to_zarr, interrupted, resumed", ["C09"], "caught", "RESUME-ALL-1", "existing rule"),
    "C10-3": ("c.compute() with optimisation, then compute(b, c, resume=True) where b was fused away", ["C10", "C07", "C09"], "caught", "BARRIER-SRC-1", "existing rule, registered for C10 because of this change"),
    "C10-4": ("one compute(..., compile_function=F) of an unfused operation, then a plain compute", ["C10"], "caught", "OWN-MUT-1", "existing rule"),
    "C11-3": ("lazy store of a single-op producer followed by computing a consumer", ["C11"], "caught", "STORE-NOFUSE-1", "existing rule (added after round 1)"),
    "C11-4": ("a lazy region store executed a second time", ["C11", "C13"], "caught", "COUNT-1", "clause reiterable (primitive) added because of this change"),
    "C12-4": ("diff(x, prepend=/append=) with a boundary array of wider dtype", ["C12"], "caught", "META-STALE-1", "rule added because of this change"),
    "C13-3": ("use_backups; original and backup completing in the same wait round", ["C13", "C08"], "caught", "MAP-ONCE-1", "clause mark-unconditional added because of this change"),
    "C13-4": ("a lazy region store computed more than once", ["C13", "C11"], "caught", "COUNT-1", "clause reiterable added because of this change"),
    "C15-3": ("the same array object passed twice with different index patterns (matmul(a, a))", ["C15", "C01"], "caught", "PROXY-KEYS-1", "clause by-name added because of this change"),
    "C15-4": ("fusion, a streaming predecessor and the same predecessor key named twice for one output block", ["C15", "C02"], "caught", "NEST-DISPATCH-1", "clause own-dict added because of this change"),
    "C16-3": ("to_zarr(x, path, region=..., compute=False) with no array at the target yet", ["C16"], "caught", "LAZY-ENTRY-1", "existing rule"),
    "C18-3": ("two specs with the same executor_name and different executor_options", ["C18"], "caught", "SPEC-EQ-1", "existing rule"),
    "C18-4": ("a size literal with more fractional digits than its unit resolves, e.g. '1.0004kB'", ["C18"], "caught", "BYTES-1", "clause exact-before-test added because of this change"),
    "C20-3": ("serialize before any compute, compute something, then combine the deserialized array with a local one", ["C20", "C19", "C18"], "caught", "SPEC-EQ-1", "existing rule (C18); registered for C19/C20 with the whole-dict clause because of this change"),
    "C20-4": ("builder computed and resumed, pickled, exited; receiver computes with resume=True", ["C20", "C09", "C10"], "caught", "RESUME-PURE-1", "rule added because of this change (RESUME-ALL-1 reports it under C09)"),
    # ------------------------------------------------------------------ round 3
    "C03-5": ("an optimised plan with a streaming op fused with a predecessor and a fan-in above the default limits (split_every=16)", ["C03", "C15"], "caught", "NEST-LAZY-1", "existing rule"),
    "C03-6": ("repeat(x, n, axis=None) on an N-d array whose chunks hold several partial rows", ["C03"], "caught", "MEM-STALE-1", "rule added because of this change"),
    "C08-6": ("use_backups and a clock coarser than the task durations (a completed duration of exactly 0.0)", ["C08"], "caught", "SCHED-DIV-1", "rule added because of this change"),
    "C13-5": ("an operation whose output has a zero-length dimension", ["C13"], "caught", "COUNT-1", "existing rule"),
    "C13-6": ("threads/processes executor with batch_size smaller than the number of tasks", ["C13", "C08"], "caught", "MAP-SUBMIT-1", "existing rule (added after the mutation sweep)"),
    "C15-5": ("fusion, a streaming predecessor, and the same predecessor block requested twice for one output block", ["C15", "C02"], "caught", "NEST-DISPATCH-1", "clause key-fresh-call added because of this change"),
    "C15-6": ("a contraction or drop_axis together with an argument that lacks the contracted index and has a single-block dimension", ["C15"], "missed-by-design", None, "index arithmetic inside the vendored dask code"),
    "C16-5": ("asarray(zarr_array, dtype=other) — a storage-backed array-like with an explicit differing dtype", ["C16"], "missed-by-design", None, "NumPy's conversion protocol (__array__) is not in the effect table"),
    "C16-6": ("repeat(x, repeats) with repeats a 0-d integer cubed array", ["C16"], "caught", "LAZY-IMPLICIT-1", "clause index added because of this change"),
    "C18-6": ("an equal-but-distinct Spec combined once, collected, and a different Spec allocated at the same address", ["C18", "C19", "C20"], "caught", "SPEC-CHECK-2", "clause no-identity-cache (a module-level container keyed by id(...) consulted by the spec check: positive evidence, reported although the comparison moved into a new private helper) added because of this change; the shape clause itself says 'not decided' there"),
    "C20-6": ("two builder processes importing cubed within the same second with one work_dir, resume=True", ["C20", "C10"], "caught", "CLEANUP-1", "existing clause context-id"),
    # ------------------------------------------------------------------ round 5 (ids Cxx-e<k>; prompt steered away from the anchored lines, towards helpers / cooperating sites)
    "C02-e1": ("three or more ops fused over two levels, a streaming op over another, the same block requested twice (broadcast or repeated argument)", ["C02", "C15"], "caught", "FUSE-PROV-1", "existing rule (function-dicts clause)"),
    "C02-e2": ("lazy store (compute=False) of a lazy op output, then computing only a consumer of the stored array, optimiser on", ["C02", "C11"], "caught", "STORE-NOFUSE-1", "first run: ANALYSIS-ERROR (the in-place re-target had become replace(...) on a copy); clauses copy-marked / copy-stored added because of this change"),
    "C03-e1": ("default optimiser, an operand used twice (a*a), Zarr-backed sources, two levels of binary ops", ["C03", "C04"], "caught", "MULTI-EDGE-1", "rule added because of this change"),
    "C03-e2": ("a ragged last chunk, a fused plan, an op with two or more fused predecessors", ["C03", "C04"], "caught", "CHUNKMEM-1", "rule added because of this change"),
    "C05-e1": ("allow_irregular=False, a budget forcing two or more stages, a shrinking axis", ["C05", "C14"], "caught", "RECHUNK-GRID-1", "existing rule (third independent occurrence of this slip)"),
    "C05-e2": ("one lazy array executed in-process, then stored (proxy handle cached)", ["C05", "C11", "C06"], "caught", "PROXY-OPEN-1", "existing rule"),
    "C07-e1": ("resume=True, a multi-output op whose later output is partial", ["C07", "C09"], "caught", "RESUME-ALL-1", "existing rule"),
    "C07-e2": ("batch_size, an in-flight set finishing within one wait round", ["C07", "C08"], "caught", "MAP-DRAIN-1", "existing rule (fourth independent occurrence)"),
    "C09-e1": ("a plan that keeps a structured (multi-field) array, a crash between the per-field writes of the last task, resume", ["C09", "C07"], "caught", "RESUME-PROVIDER-1", "rule added because of this change"),
    "C09-e2": ("resume=True together with compute_arrays_in_parallel=True", ["C09", "C07"], "caught", "BARRIER-SRC-1", "existing rule"),
    "C10-e1": ("the producing op executed once in-process, then to_zarr of the same array (proxy handle cached)", ["C10", "C06", "C11"], "caught", "OWN-MUT-1", "existing rules (OWN-MUT-1, TASK-PURE-1)"),
    "C10-e2": ("an array fused away by an earlier optimised compute, then resume with another consumer", ["C10", "C09", "C07"], "caught", "RESUME-MARK-1", "existing rule, registered for C10/C07 because of this change"),
    "C11-e1": ("a lazy array computed once in-process, then to_zarr / store of it", ["C11", "C05"], "caught", "PROXY-OPEN-1", "existing rule"),
    "C11-e2": ("batch_size with use_backups off (threads / processes executor)", ["C07", "C08", "C11"], "caught", "MAP-DRAIN-1", "clause refill-gate added because of this change (reported under C07/C08; C11 does not quantify over batch_size)"),
    "C13-e1": ("use_backups, a straggler and its backup finishing in the same wait round", ["C13", "C08"], "caught", "MAP-ONCE-1", "existing rule"),
    "C13-e2": ("a lazy region store computed twice (or un-optimised then optimised)", ["C13", "C11"], "caught", "COUNT-1", "clause reiterable:class added because of this change"),
    "C04-e1": ("forced fusion (fuse_all_optimize_dag), a first fused predecessor heavier than its successor, allowed_mem between the two projections", ["C04", "C03"], "caught", "MEM-FUSEMAX-1", "existing rule (third independent 'generator consumed by an early all()')"),
    "C04-e2": ("the same fusable predecessor feeding two arguments, heavier than the consumer, allowed_mem in the narrow band, default optimiser", ["C04", "C03", "C02"], "caught", "FUSE-TWINLIST-1", "rule added because of this change"),
    "C06-e1": ("a multi-stage rechunk with an irregular intermediate and a second-stage task run twice in one process", ["C06", "C15"], "caught", "TASK-PURE-1", "existing rule"),
    "C06-e2": ("a structured-dtype intermediate and a create-arrays task run again after the producer wrote", ["C06"], "caught", "CREATE-MODE-1", "existing rule (second independent occurrence)"),
    "C08-e1": ("batch_size not dividing the number of inputs", ["C08", "C13", "C07"], "caught", "BATCH-COVER-1", "rule added because of this change"),
    "C08-e2": ("use_backups, one twin failing and the other succeeding", ["C08"], "caught", "MAP-TWIN-SYM-1", "existing rule"),
    "C14-e2": ("x.rechunk(c, allow_irregular=False) through the array method", ["C14"], "caught", "RECHUNK-CHAIN-1", "clause wrapper-forward added because of this change"),
    "C14-e3": ("rechunk_plan of a request that needs two or more copy ops", ["C14"], "caught", "RECHUNK-CHAIN-1", "clause report-source added because of this change"),
    "C14-e4": ("a dict chunk spec with an unspecified axis reused for a second array", ["C14"], "caught", "RECHUNK-CHAIN-1", "clause request-intact added because of this change"),
    "C18-e1": ("plan()/visualize() of several arrays with unequal specs", ["C18"], "caught", "SPEC-CHECK-1", "existing rule"),
    "C18-e2": ("two specs on the processes executor differing only in max_workers", ["C18", "C19"], "caught", "EXEC-EQ-1", "rule added because of this change"),
    "C15-e1": ("fusion, a streaming predecessor, the same predecessor chunk referenced twice", ["C15", "C02"], "caught", "NEST-DISPATCH-1", "existing clause key-fresh-call"),
}


def main():
    n = 0
    for sid in sorted(os.listdir(SEEDED)):
        d = os.path.join(SEEDED, sid)
        mp = os.path.join(d, "meta.json")
        if not os.path.isdir(d) or not os.path.exists(mp):
            continue
        if sid not in T:
            print("no table entry for", sid)
            continue
        needs, props, expect, by, note = T[sid]
        meta = json.load(open(mp))
        meta.update({"needs_to_manifest": needs, "check_properties": props, "expect": expect, "caught_by": by, "note": note, "round": 5 if "-e" in sid else 1 if sid.endswith(("-1", "-2")) else 2 if sid.endswith(("-3", "-4")) else 3})
        json.dump(meta, open(mp, "w"), indent=1)
        n += 1
    print("updated", n, "of", len(T), "known ids")


if __name__ == "__main__":
    main()
