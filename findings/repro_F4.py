"""F4 (C08, C13): an input is delivered twice when the original and its backup finish in the
same asyncio.wait round (and, in the opposite visiting order, a failed original raises although
its backup succeeded).

Scripted futures, no timers: the backup launch is forced by a should_launch_backup stub that
says "yes" once; both futures are then resolved before the next wait round.
Run:  /venv/bin/python /verif/findings/repro_F4.py      (exit 0 = defect reproduced)
"""
import asyncio
import sys

sys.path.insert(0, "/repo")
import cubed.runtime.asyncio as rt  # noqa: E402


async def scenario(fail_original: bool):
    loop = asyncio.get_running_loop()
    futs = {}
    launched = []

    def create_futures_func(inputs, **kw):
        out = []
        for i in inputs:
            f = loop.create_future()
            futs.setdefault(i, []).append(f)
            out.append((i, f))
        return out

    def should(task, now, start_times, end_times, **kw):
        # launch exactly one backup: for input 0's original
        if not launched and task is futs[0][0]:
            launched.append(task)
            return True
        return False

    rt_should = rt.should_launch_backup
    rt.should_launch_backup = should
    results = []
    try:
        agen = rt.async_map_unordered(create_futures_func, range(12), use_backups=True)

        async def driver():
            # let the map start and launch the backup for input 0 (first timeout round)
            for i in range(1, 12):
                futs[i][0].set_result(i)
            while len(futs[0]) < 2:
                await asyncio.sleep(0.05)
            # original and backup complete in the same round
            if fail_original:
                futs[0][0].set_exception(RuntimeError("original failed"))
            else:
                futs[0][0].set_result(0)
            futs[0][1].set_result(0)

        t = asyncio.ensure_future(driver())
        async for r in agen:
            results.append(r)
        await t
    finally:
        rt.should_launch_backup = rt_should
    return results


def main():
    ok = 0
    try:
        res = asyncio.run(scenario(False))
        print("both succeed -> results:", sorted(res))
        if len(res) != 12:
            print(f"REPRODUCED F4a: {len(res)} results for 12 inputs (input 0 delivered {res.count(0)} times)")
            ok += 1
    except Exception as e:  # noqa: BLE001
        print("unexpected", type(e), e)
    try:
        res = asyncio.run(scenario(True))
        print("original fails, backup succeeds -> results:", sorted(res))
    except RuntimeError as e:
        print("REPRODUCED F4b (order-dependent): raised", e, "although the backup succeeded")
        ok += 1
    return 0 if ok else 1


if __name__ == "__main__":
    sys.exit(main())
