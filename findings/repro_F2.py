"""F2 (C19): searchsorted builds its offsets helper array with the default spec.

With any explicit Spec on the operands, combining `out + x1_offsets` raises
`ValueError: Arrays must have same spec`, although NumPy evaluates the expression and the
same call under the default configuration is accepted.
Run:  /venv/bin/python /verif/findings/repro_F2.py      (exit 0 = defect reproduced)
"""
import sys
import tempfile

import numpy as np

sys.path.insert(0, "/repo")
import cubed  # noqa: E402
import cubed.array_api as xp  # noqa: E402


def main():
    a_np, v_np = np.array([1, 3, 5, 7, 9, 11]), np.array([0, 4, 8, 12])
    # default configuration: accepted
    a, v = xp.asarray(a_np, chunks=3), xp.asarray(v_np, chunks=2)
    r0 = np.asarray(xp.searchsorted(a, v).compute())
    print("default config :", r0, "numpy:", np.searchsorted(a_np, v_np))
    tmp = tempfile.mkdtemp(prefix="verif-f2-")
    spec = cubed.Spec(work_dir=tmp, allowed_mem="500MB")
    a, v = xp.asarray(a_np, chunks=3, spec=spec), xp.asarray(v_np, chunks=2, spec=spec)
    try:
        r1 = np.asarray(xp.searchsorted(a, v).compute())
        print("explicit Spec  :", r1)
        return 1
    except ValueError as e:
        print("REPRODUCED F2: explicit Spec ->", str(e)[:70])
        return 0
    finally:
        import shutil

        shutil.rmtree(tmp, ignore_errors=True)


if __name__ == "__main__":
    sys.exit(main())
