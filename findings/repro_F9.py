"""F9 (C20): generated names are unique per process only; plans are merged by node name.

A child process builds `array-00N`, ships it with cloudpickle; the parent, which owns a
different array with the same generated name, combines the two: the wrong operand is read.
Run:  /venv/bin/python /verif/findings/repro_F9.py      (exit 0 = defect reproduced)
"""
import multiprocessing as mp
import sys
import tempfile

import numpy as np

sys.path.insert(0, "/repo")


def child(q, tmp):
    import cloudpickle

    import cubed
    import cubed.array_api as xp

    spec = cubed.Spec(work_dir=tmp, allowed_mem="200MB")
    c = xp.asarray(np.arange(4.0) + 100, chunks=2, spec=spec)  # array-001 in the child
    q.put((c.name, cloudpickle.dumps(c)))


def main():
    import cloudpickle

    import cubed
    import cubed.array_api as xp

    tmp = tempfile.mkdtemp(prefix="verif-f9-")
    ctx = mp.get_context("spawn")
    q = ctx.Queue()
    p = ctx.Process(target=child, args=(q, tmp))
    p.start()
    cname, blob = q.get()
    p.join()
    spec = cubed.Spec(work_dir=tmp, allowed_mem="200MB")
    parent = xp.asarray(np.arange(4.0), chunks=2, spec=spec)  # array-001 in the parent
    c = cloudpickle.loads(blob)
    print("child name:", cname, " parent name:", parent.name)
    got = np.asarray((c + parent).compute())
    expected = (np.arange(4.0) + 100) + np.arange(4.0)
    print("child + parent =", got, " expected", expected)
    import shutil

    shutil.rmtree(tmp, ignore_errors=True)
    if cname == parent.name and not np.array_equal(got, expected):
        print("REPRODUCED F9: two distinct arrays with one generated name were mistaken for one another")
        return 0
    return 1


if __name__ == "__main__":
    sys.exit(main())
