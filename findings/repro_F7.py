"""F7 (C17, surfaces a C01 defect): cumulative_sum over a number of chunks that is > 5 and not
a multiple of 5 dies with a bare AssertionError at build time (core.ops.scan's internal
`assert increment.shape[axis] == scanned.numblocks[axis]`), although NumPy evaluates it.
Run:  /venv/bin/python /verif/findings/repro_F7.py      (exit 0 = defect reproduced)
"""
import sys

import numpy as np

sys.path.insert(0, "/repo")
import cubed.array_api as xp  # noqa: E402


def main():
    a = xp.asarray(np.arange(14.0), chunks=2)  # 7 chunks
    try:
        r = xp.cumulative_sum(a)
        print("built; result:", np.asarray(r.compute()))
        return 1
    except AssertionError as e:
        print("REPRODUCED F7: bare AssertionError while building cumulative_sum over 7 chunks:", repr(e))
        return 0


if __name__ == "__main__":
    sys.exit(main())
