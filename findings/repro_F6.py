"""F6 (C05, C11, C13): store/to_zarr into an existing Zarr array whose chunks differ from the
source's chunks has no compatibility guard.

(a) whole-array store: source chunks (2,) into a target with chunks (4,): 4 tasks are built,
    two per stored chunk; every task's write is a partial-chunk write (zarr must read the chunk,
    merge, and write it back) -> under a concurrent executor two tasks race on one chunk.
    Shown deterministically by counting, per stored chunk key, the set() calls and the get()
    calls issued by the write path on the single-threaded executor.
(b) region store with the same mismatch: num_tasks advertises the source's block count (4)
    while the task iterable enumerates the target's blocks (2), and each task writes a
    source block (2 elements) into a target chunk region (4 elements).
Run:  /venv/bin/python /verif/findings/repro_F6.py      (exit 0 = defect reproduced)
"""
import asyncio
import sys
import tempfile
from collections import Counter

import numpy as np
import zarr

sys.path.insert(0, "/repo")
import cubed  # noqa: E402
import cubed.array_api as xp  # noqa: E402
from cubed.runtime.executors.local import SingleThreadedExecutor  # noqa: E402


def counting_store():
    base = zarr.storage.MemoryStore()
    sets, gets = Counter(), Counter()
    orig_set, orig_get = base.set, base.get

    async def set_(key, value, *a, **k):
        if not key.endswith("zarr.json"):
            sets[key] += 1
        return await orig_set(key, value, *a, **k)

    async def get_(key, *a, **k):
        if not key.endswith("zarr.json"):
            gets[key] += 1
        return await orig_get(key, *a, **k)

    base.set, base.get = set_, get_
    return base, sets, gets


def main():
    ok = 0
    tmp = tempfile.mkdtemp(prefix="verif-f6-")
    spec = cubed.Spec(work_dir=tmp, allowed_mem="200MB")
    # (a)
    store, sets, gets = counting_store()
    target = zarr.create_array(store=store, shape=(8,), chunks=(4,), dtype="f8", fill_value=-1.0)
    src = xp.asarray(np.arange(8.0), chunks=2, spec=spec)
    out = cubed.store([src], [target], compute=False)[0]
    print("(a) tasks in the plan:", out.plan().num_tasks, "for", target.nchunks, "stored chunks")
    sets.clear(); gets.clear()
    out.compute(executor=SingleThreadedExecutor(), _return_in_memory_array=False)
    print("    set() per chunk key:", dict(sets), " get() per chunk key during writes:", dict(gets))
    if any(v > 1 for v in sets.values()) and any(v > 0 for v in gets.values()):
        print("REPRODUCED F6a: each stored chunk has two writer tasks, each doing read-modify-write")
        ok += 1
    # (b)
    store2, _, _ = counting_store()
    target2 = zarr.create_array(store=store2, shape=(16,), chunks=(4,), dtype="f8", fill_value=-1.0)
    src2 = xp.asarray(np.arange(8.0), chunks=2, spec=spec)
    try:
        o2 = cubed.store([src2], [target2], regions=(slice(0, 8),), compute=False)[0]
        fp = o2.plan()
        op = [d["primitive_op"] for n, d in fp.dag.nodes(data=True) if "primitive_op" in d and n != "create-arrays"][-1]
        n_iter = len(list(op.pipeline.mappable))
        print("(b) advertised num_tasks:", op.num_tasks, " items in the task iterable:", n_iter)
        if op.num_tasks != n_iter:
            print("REPRODUCED F6b: advertised task count differs from the tasks that run")
            ok += 1
        try:
            o2.compute(executor=SingleThreadedExecutor(), _return_in_memory_array=False)
            print("    target after region store:", target2[:])
        except Exception as e:  # noqa: BLE001
            print("    region store failed mid-run:", type(e).__name__, str(e)[:80])
    except Exception as e:  # noqa: BLE001
        print("(b) build failed:", type(e).__name__, e)
    import shutil

    shutil.rmtree(tmp, ignore_errors=True)
    return 0 if ok else 1


if __name__ == "__main__":
    sys.exit(main())
