"""F12 (C11, C02): the "store must be written" guard is lost when the store's producer is fused.

_store_array marks the operation that produces a lazily stored array as
fusable_with_successors=False, so that a later computation of something derived from the
array still writes the store target.  fuse / fuse_multiple build the fused operation with the
default fusable_with_successors=True: as soon as the producer has a fusable predecessor of its
own, the optimiser first fuses that predecessor in (dropping the mark) and then fuses the
result into the consumer — the target is never written.  With a single-op producer (nothing
to fuse into it) the same program writes the target.
Run:  /venv/bin/python /verif/findings/repro_F12.py      (exit 0 = defect reproduced)
"""
import sys
import tempfile

import numpy as np

sys.path.insert(0, "/repo")
import zarr  # noqa: E402

import cubed  # noqa: E402
import cubed.array_api as xp  # noqa: E402


def run(make):
    tmp = tempfile.mkdtemp(prefix="verif-f12-")
    spec = cubed.Spec(work_dir=tmp, allowed_mem="200MB")
    an = np.arange(16.0).reshape(4, 4)
    a = xp.asarray(an, chunks=(2, 2), spec=spec)
    c = make(a)
    target = zarr.create_array(f"{tmp}/t.zarr", shape=(4, 4), chunks=(2, 2), dtype="f8", fill_value=-1.0)
    cubed.to_zarr(c, target, compute=False)
    s = xp.sum(c)
    val = s.compute()
    written = target.nchunks_initialized
    return float(val), written, target[:]


def main():
    v1, w1, _ = run(lambda a: xp.negative(a))  # producer is a single op
    v2, w2, t2 = run(lambda a: xp.multiply(xp.negative(a), a))  # producer has a fusable predecessor
    print("single-op producer : sum =", v1, " target chunks written =", w1, "of 4")
    print("two-op producer    : sum =", v2, " target chunks written =", w2, "of 4")
    if w1 == 4 and w2 == 0:
        print("DEFECT: the stored array was fused into its consumer; the store target was never written:")
        print(t2)
        return 0
    return 1


if __name__ == "__main__":
    sys.exit(main())
