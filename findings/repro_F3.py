"""F3 (C08): async_map_unordered rebinds start_times in the batch-refill branch.

With batch_size and use_backups=True, the next should_launch_backup() looks up a task of an
earlier batch in start_times -> KeyError although every task succeeds.
Run:  /venv/bin/python /verif/findings/repro_F3.py      (exit 0 = defect reproduced)
"""
import asyncio
import sys
import time
from concurrent.futures import ThreadPoolExecutor

sys.path.insert(0, "/repo")
from cubed.runtime.asyncio import async_map_unordered  # noqa: E402


def work(i):
    # later inputs are slower so that tasks of earlier batches are still pending at refill
    time.sleep(0.01 + 0.02 * (i % 7))
    return i


def main():
    pool = ThreadPoolExecutor(8)

    def create_futures_func(inputs, **kw):
        return [(i, asyncio.wrap_future(pool.submit(work, i))) for i in inputs]

    async def run():
        out = []
        async for r in async_map_unordered(create_futures_func, range(40), use_backups=True, batch_size=12):
            out.append(r)
        return out

    try:
        out = asyncio.run(run())
    except KeyError as e:
        print("REPRODUCED F3: KeyError from start_times lookup:", repr(e)[:80])
        return 0
    print("not reproduced; results:", len(out), "distinct:", len(set(out)))
    return 1


if __name__ == "__main__":
    sys.exit(main())
