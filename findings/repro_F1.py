"""F1 (C01, C17): stack() passes differently chunked inputs straight to general_blockwise with
a key function that reuses the output block coordinates for whichever input is selected.

(a) chunks 2 vs 3 over 4 elements (same block count): silently wrong values
(b) chunks 2 vs 3 over 6 elements (3 vs 2 blocks): IndexError inside a task, after execution
    has started
Run:  /venv/bin/python /verif/findings/repro_F1.py      (exit 0 = defect reproduced)
"""
import sys

import numpy as np

sys.path.insert(0, "/repo")
import cubed.array_api as xp  # noqa: E402


def main():
    ok = 0
    a = xp.asarray(np.arange(4.0), chunks=2)
    b = xp.asarray(np.arange(4.0) + 10, chunks=3)
    got = np.asarray(xp.stack([a, b]).compute())
    exp = np.stack([np.arange(4.0), np.arange(4.0) + 10])
    print("stack (chunks 2 vs 3):\n", got, "\nexpected:\n", exp)
    if not np.array_equal(got, exp):
        print("REPRODUCED F1a: silently wrong values")
        ok += 1
    a = xp.asarray(np.arange(6.0), chunks=2)
    b = xp.asarray(np.arange(6.0) + 10, chunks=3)
    try:
        s = xp.stack([a, b])
        print("built without error (no explicit refusal)")
        s.compute()
    except Exception as e:  # noqa: BLE001
        print("REPRODUCED F1b: failure during execution:", type(e).__name__, str(e)[:80])
        ok += 1
    return 0 if ok else 1


if __name__ == "__main__":
    sys.exit(main())
