"""F10 (C19): asarray's xarray branch recurses as asarray(a.data), dropping dtype/chunks/spec.

xarray is not installed here; the branch only inspects type(a).__module__ and a.data, so a
stand-in class living in a module named `xarray` exercises exactly the real code path.
Run:  /venv/bin/python /verif/findings/repro_F10.py      (exit 0 = defect reproduced)
"""
import sys
import tempfile
import types

import numpy as np

sys.path.insert(0, "/repo")
import cubed  # noqa: E402
import cubed.array_api as xp  # noqa: E402


def main():
    mod = types.ModuleType("xarray")
    sys.modules.setdefault("xarray", mod)

    class _Var:
        def __init__(self, data):
            self._data = data

    class DataArray:  # stand-in: a labelled wrapper around in-memory data
        def __init__(self, data):
            self.data = data
            self.variable = _Var(data)

    DataArray.__module__ = "xarray.core.dataarray"
    tmp = tempfile.mkdtemp(prefix="verif-f10-")
    spec = cubed.Spec(work_dir=tmp, allowed_mem="123MB")
    x = xp.asarray(DataArray(np.arange(6.0)), chunks=2, spec=spec)
    print("requested spec allowed_mem:", spec.allowed_mem, " got:", x.spec.allowed_mem, " chunks:", x.chunks)
    import shutil

    shutil.rmtree(tmp, ignore_errors=True)
    if x.spec != spec:
        print("REPRODUCED F10: spec (and chunks) passed to asarray are ignored for xarray-like input")
        return 0
    return 1


if __name__ == "__main__":
    sys.exit(main())
