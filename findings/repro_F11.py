"""F11 (C17): repeat(x, 0) is accepted and planned, then dies inside a task.

NumPy evaluates np.repeat(a, 0) (an empty array).  cubed builds the expression (shape (0,)),
plans it, and the first task raises ZeroDivisionError from the key function (`bi // repeats`)
— an incidental exception after execution has started, which C17 excludes.
Run:  /venv/bin/python /verif/findings/repro_F11.py      (exit 0 = defect reproduced)
"""
import sys

import numpy as np

sys.path.insert(0, "/repo")
import cubed  # noqa: E402,F401
import cubed.array_api as xp  # noqa: E402


def main():
    a = xp.asarray(np.arange(6), chunks=2)
    print("numpy:", np.repeat(np.arange(6), 0).shape)
    try:
        r = xp.repeat(a, 0)
    except (ValueError, TypeError, NotImplementedError, IndexError) as e:
        print("refused while building:", type(e).__name__, e)
        return 1  # property holds
    print("built:", r.shape, r.chunks, "tasks planned:", r.plan().num_tasks)
    try:
        print("computed:", r.compute())
        return 1
    except ZeroDivisionError as e:
        print("DEFECT: failed during execution with", type(e).__name__, "-", e)
        return 0


if __name__ == "__main__":
    sys.exit(main())
