"""F5 (C10, C11, C12): _store_array re-targets an uncomputed source array *in place*.

(a) y = x * 2 ; to_zarr(x, path) ; y.compute()  -> y reads fill values (x's intermediate is
    never written because x's operation now writes to `path`, while y's plan still reads the
    old intermediate array)
(b) store([x, x], [p1, p2]) -> p1 is never created
Run:  /venv/bin/python /verif/findings/repro_F5.py      (exit 0 = defect reproduced)
"""
import os
import sys
import tempfile

import numpy as np

sys.path.insert(0, "/repo")
import cubed  # noqa: E402
import cubed.array_api as xp  # noqa: E402


def main():
    ok = 0
    tmp = tempfile.mkdtemp(prefix="verif-f5-")
    spec = cubed.Spec(work_dir=tmp, allowed_mem="200MB")
    a = xp.asarray(np.arange(8.0), chunks=4, spec=spec)
    x = a + 1  # lazy (not yet computed) source
    y = x * 2
    expected = (np.arange(8.0) + 1) * 2
    cubed.to_zarr(x, os.path.join(tmp, "x.zarr"))
    try:
        got = np.asarray(y.compute())
        print("y.compute() after to_zarr(x):", got, "expected", expected)
        if not np.array_equal(got, expected):
            print("REPRODUCED F5a: value of y changed by storing its ancestor x")
            ok += 1
    except Exception as e:  # noqa: BLE001
        print("REPRODUCED F5a (as an error):", type(e).__name__, str(e)[:100])
        ok += 1
    b = xp.asarray(np.arange(8.0), chunks=4, spec=spec)
    x2 = b + 1
    p1, p2 = os.path.join(tmp, "p1.zarr"), os.path.join(tmp, "p2.zarr")
    cubed.store([x2, x2], [p1, p2])
    print("p1 exists:", os.path.exists(p1), " p2 exists:", os.path.exists(p2))
    if not os.path.exists(p1):
        print("REPRODUCED F5b: one source stored to two targets leaves the first target non-existent")
        ok += 1
    import shutil

    shutil.rmtree(tmp, ignore_errors=True)
    return 0 if ok else 1


if __name__ == "__main__":
    sys.exit(main())
